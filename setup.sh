#!/bin/sh
# Builds the overlay interpreter used by every check: a python3.12 venv created from /venv's
# interpreter, solver/algebra wheels from the offline wheelhouse, plus a .pth that exposes the
# repository's own site-packages (numpy, scipy, astropy, h5py, pydantic, dask, nuspacesim deps).
# Idempotent; offline; writes only under /verif/.venv .
set -e
cd "$(dirname "$0")"
V=.venv
if [ ! -x "$V/bin/python" ] || ! "$V/bin/python" -c "import z3, sympy, mpmath, jsonschema, numpy" >/dev/null 2>&1; then
  rm -rf "$V"
  /venv/bin/python -m venv "$V" >/dev/null
  PIP_NO_INDEX=1 "$V/bin/pip" install -q --no-index --find-links /opt/veriftools/wheels \
      z3-solver sympy mpmath jsonschema >/dev/null 2>&1
  SP=$("$V/bin/python" -c "import sysconfig; print(sysconfig.get_paths()['purelib'])")
  echo "import site; site.addsitedir('/venv/lib/python3.12/site-packages')" > "$SP/zz_repo_site.pth"
fi
"$V/bin/python" -c "import z3, sympy, mpmath, jsonschema, numpy, astropy; print('setup ok: z3', z3.get_version_string(), 'sympy', sympy.__version__)"
